"""CLI: python -m vf.run <ID> [--tier quick|thorough] [--replay FILE] [--only SUB] [--jobs N]

exit 0: property held on everything explored (KNOWN-FINDING lines allowed)
exit 1: at least one 'VIOLATION property=<ID> replay=<path>' line
exit 2: harness error
"""
import argparse
import glob
import importlib
import json
import multiprocessing as mp
import os
import sys
import time
import traceback

from vf import core


def _task(args):
    mod_name, sc_name, n, seed, tier, known_sigs = args
    mod = importlib.import_module(mod_name)
    sc = {s.name: s for s in mod.SUBCHECKS}[sc_name]
    try:
        st, vio = core.run_subcheck_shard(sc, n, seed, tier, set(known_sigs))
        return sc_name, st, vio, None
    except core.HarnessError as e:
        return sc_name, None, None, 'HarnessError: %s' % e
    except Exception:  # noqa: BLE001
        return sc_name, None, None, traceback.format_exc()


def main(argv=None):
    ap = argparse.ArgumentParser()
    ap.add_argument('prop')
    ap.add_argument('--tier', default=os.environ.get('VERIF_TIER') or 'quick',
                    choices=['quick', 'thorough'])
    ap.add_argument('--replay')
    ap.add_argument('--only', action='append')
    ap.add_argument('--jobs', type=int, default=int(os.environ.get('VERIF_JOBS', '0')))
    ap.add_argument('--scale', type=float, default=float(os.environ.get('VERIF_SCALE', '1')))
    a = ap.parse_args(argv)
    prop = a.prop.upper()
    try:
        seed = int(os.environ.get('VERIF_SEED') or '1')
    except ValueError:
        seed = 1
    t0 = time.time()
    mod_name = 'vf.props.' + prop.lower()
    try:
        mod = importlib.import_module(mod_name)
    except Exception:  # noqa: BLE001
        traceback.print_exc()
        print('HARNESS-ERROR property=%s import failed' % prop)
        return 2
    subchecks = mod.SUBCHECKS

    if a.replay:
        path = a.replay
        if not os.path.isabs(path) and not os.path.exists(path):
            path = os.path.join(core.VERIF_DIR, path)
        v = core.replay_file(prop, subchecks, path)
        if v is not None:
            print('replay: %s [%s]' % (v.msg, v.sig))
            print('VIOLATION property=%s replay=%s' % (prop, a.replay))
            return 1
        print('replay: case passes')
        return 0

    known, fixed = core.load_known(prop)
    known_sigs = sorted({k['signature'] for k in known})
    # dev aid only (never set by registered commands): keep searching behind a finding
    dev_skip = [x for x in os.environ.get('VERIF_EXTRA_KNOWN', '').split(',') if x]
    if dev_skip:
        print('DEV: suppressing signatures %s' % dev_skip)
        known_sigs = sorted(set(known_sigs) | set(dev_skip))
    n_viol = 0
    lines = []

    # 1. regression tier (includes regressions of fixed findings)
    reg_files = sorted(glob.glob(os.path.join(core.VERIF_DIR, 'regressions', prop, '*.json')))
    probe_files = {os.path.join(core.VERIF_DIR, k['probe']): k for k in known if k.get('probe')}
    n_reg = 0
    for f in reg_files:
        if f in probe_files:
            continue
        n_reg += 1
        v = core.replay_file(prop, subchecks, f)
        if v is not None and v.sig not in known_sigs:
            n_viol += 1
            print('regression %s: %s [%s]' % (os.path.basename(f), v.msg, v.sig))
            print('VIOLATION property=%s replay=%s' % (prop, os.path.relpath(f, core.VERIF_DIR)))
    # 2. known-finding probes
    kf_lines = []
    for f, k in probe_files.items():
        v = core.replay_file(prop, subchecks, f)
        if v is not None and v.sig == k['signature']:
            line = 'KNOWN-FINDING: property=%s %s [%s]' % (prop, k['what'], k['signature'])
        elif v is not None:
            n_viol += 1
            print('known-finding probe fails differently: %s [%s]' % (v.msg, v.sig))
            print('VIOLATION property=%s replay=%s' % (prop, k['probe']))
            continue
        else:
            line = ('NOTE: known finding no longer reproduces on its probe: property=%s [%s]'
                    % (prop, k['signature']))
        print(line)
        kf_lines.append(line)
    for k in known:
        if not k.get('probe'):
            line = 'KNOWN-FINDING: property=%s %s [%s]' % (prop, k['what'], k['signature'])
            print(line)
            kf_lines.append(line)

    # 3. generated search
    jobs = a.jobs or (16 if a.tier == 'thorough' else 8)
    tasks = []
    for sc in subchecks:
        if a.only and sc.name not in a.only:
            continue
        if sc.enumerate is not None:
            tasks.append((mod_name, sc.name, 0, seed, a.tier, known_sigs))
            continue
        n = sc.quick if a.tier == 'quick' else sc.thorough
        n = max(1, int(n * a.scale))
        shards = 1
        if a.tier == 'thorough':
            shards = max(1, min(16, n // 50))
        elif n >= 120:
            shards = 2
        per = max(1, n // shards)
        for k in range(shards):
            tasks.append((mod_name, sc.name, per, seed * 1000 + k, a.tier, known_sigs))
    results = []
    if jobs <= 1 or len(tasks) <= 1:
        results = [_task(t) for t in tasks]
    else:
        ctx = mp.get_context('fork')
        with ctx.Pool(min(jobs, len(tasks))) as pool:
            results = pool.map(_task, tasks, chunksize=1)

    stats_by_sc = {}
    harness_err = False
    seen_sigs = set()
    for sc_name, st, vio, err in results:
        if err:
            harness_err = True
            print('HARNESS-ERROR property=%s subcheck=%s\n%s' % (prop, sc_name, err))
            continue
        if sc_name in stats_by_sc:
            stats_by_sc[sc_name] = core.Stats.merge([stats_by_sc[sc_name], st]).to_dict()
        else:
            stats_by_sc[sc_name] = st
        for v in vio:
            key = (v['subcheck'], v['signature'])
            if key in seen_sigs:
                continue
            seen_sigs.add(key)
            n_viol += 1
            rp = core.write_replay(prop, v)
            print('%s/%s: %s [%s]' % (prop, v['subcheck'], v['message'], v['signature']))
            print('VIOLATION property=%s replay=%s' % (prop, rp))

    # excessive rejection = the library refuses inputs the check needs (vacuous otherwise)
    for sc in subchecks:
        d = stats_by_sc.get(sc.name)
        if not d or d['evals'] < 20:
            continue
        rej = sum(d['rejected'].values())
        if rej > sc.max_reject_frac * d['evals']:
            n_viol += 1
            v = dict(subcheck=sc.name, case=(d['reject_example'] or {}).get('case'),
                     message='library refused %d of %d generated in-domain cases: %s' % (
                         rej, d['evals'], (d['reject_example'] or {}).get('message')),
                     signature='excess-rejections:' + sc.name, seed=seed, tier=a.tier)
            rp = core.write_replay(prop, v)
            print('%s/%s: %s' % (prop, sc.name, v['message']))
            print('VIOLATION property=%s replay=%s' % (prop, rp))

    wall = time.time() - t0
    if stats_by_sc:
        extra = dict(regressions_replayed=n_reg, known_findings=kf_lines,
                     subchecks={s.name: s.doc for s in subchecks if s.doc})
        ex = getattr(mod, 'evidence_extra', None)
        if ex:
            extra.update(ex())
        core.write_evidence(prop, a.tier, seed, mod.RULE, stats_by_sc, n_viol, wall,
                            extra=extra, assumptions=getattr(mod, 'ASSUMPTIONS', []))
    tot = sum(d['evals'] for d in stats_by_sc.values())
    nt = sum(len(set(d['nontrivial'])) for d in stats_by_sc.values())
    print('%s tier=%s seed=%d: %d cases (%d distinct non-trivial) in %d sub-checks, '
          '%d violations, %.1fs' % (prop, a.tier, seed, tot, nt, len(stats_by_sc),
                                    n_viol, wall))
    if harness_err:
        return 2
    return 1 if n_viol else 0


if __name__ == '__main__':
    sys.exit(main())
