"""Reference oracles: slow, loop-based, written from the property statements.
This module imports nothing from rsatoolbox."""
import itertools
import math

import numpy as np


# ---- vector <-> square ------------------------------------------------------

def pairs(n):
    """unordered pairs (i<j) in the order of the upper triangle, row by row"""
    return [(i, j) for i in range(n) for j in range(i + 1, n)]


def n_pairs(n):
    return n * (n - 1) // 2


def to_square(vec, n):
    m = np.zeros((n, n))
    for k, (i, j) in enumerate(pairs(n)):
        m[i, j] = vec[k]
        m[j, i] = vec[k]
    return m


def to_vector(mat):
    n = len(mat)
    return np.array([mat[i][j] for (i, j) in pairs(n)], dtype=float)


def n_from_len(length):
    """number of conditions for a vector length, None if impossible"""
    n = int(round((1 + math.sqrt(1 + 8 * length)) / 2))
    for c in (n - 1, n, n + 1):
        if c >= 1 and c * (c - 1) // 2 == length:
            return c
    return None


# ---- condition means and distances -----------------------------------------

def first_appearance(seq):
    out = []
    for x in seq:
        if not any(_same(x, y) for y in out):
            out.append(x)
    return out


def _same(a, b):
    return type(a) is type(b) and a == b or (not isinstance(a, str) and not isinstance(b, str) and a == b)


def cond_means(meas, obs):
    """labels in order of first appearance, list of mean patterns (explicit loops)"""
    meas = np.asarray(meas, dtype=float)
    labels = first_appearance(list(obs))
    means = []
    for lab in labels:
        rows = [i for i, o in enumerate(obs) if o == lab]
        acc = np.zeros(meas.shape[1])
        for i in rows:
            acc = acc + meas[i]
        means.append(acc / len(rows))
    return labels, means


def d_euclid(a, b):
    a, b = np.asarray(a, float), np.asarray(b, float)
    return float(sum((a[k] - b[k]) ** 2 for k in range(len(a))) / len(a))


def d_mahal(a, b, prec):
    a, b = np.asarray(a, float), np.asarray(b, float)
    d = a - b
    prec = np.asarray(prec, float)
    if prec.ndim == 1:
        prec = np.diag(prec)
    tot = 0.0
    for i in range(len(d)):
        for j in range(len(d)):
            tot += d[i] * prec[i, j] * d[j]
    return float(tot / len(d))


def d_corr(a, b):
    a, b = np.asarray(a, float), np.asarray(b, float)
    ac, bc = a - a.mean(), b - b.mean()
    return float(1 - (ac @ bc) / math.sqrt((ac @ ac) * (bc @ bc)))


def d_poisson(a, b, prior_lambda=1.0, prior_weight=0.1):
    a, b = np.asarray(a, float), np.asarray(b, float)
    la = (a + prior_lambda * prior_weight) / (1 + prior_weight)
    lb = (b + prior_lambda * prior_weight) / (1 + prior_weight)
    return float(sum((la[k] - lb[k]) * (math.log(la[k]) - math.log(lb[k]))
                     for k in range(len(a))) / len(a))


# ---- ranks -------------------------------------------------------------------

def ranks(x, method='average'):
    """tie-aware ranks by O(n^2) counting; NaN entries stay NaN and are not ranked"""
    x = list(x)
    n = len(x)
    out = [float('nan')] * n
    valid = [i for i in range(n) if not (isinstance(x[i], float) and math.isnan(x[i]))]
    for i in valid:
        less = sum(1 for j in valid if x[j] < x[i])
        eq = sum(1 for j in valid if x[j] == x[i])
        if method == 'average':
            out[i] = less + (eq + 1) / 2.0
        elif method == 'min':
            out[i] = less + 1.0
        elif method == 'max':
            out[i] = float(less + eq)
        elif method == 'dense':
            out[i] = float(len({x[j] for j in valid if x[j] < x[i]}) + 1)
        elif method == 'ordinal':
            out[i] = less + 1.0 + sum(1 for j in valid if x[j] == x[i] and j < i)
        else:
            raise ValueError(method)
    return np.array(out)


# ---- similarity measures (between two plain vectors) -------------------------

def s_cosine(a, b):
    a, b = np.asarray(a, float), np.asarray(b, float)
    na, nb = math.sqrt(a @ a), math.sqrt(b @ b)
    if na == 0 or nb == 0:
        return 0.0
    return float((a @ b) / (na * nb))


def s_corr(a, b):
    a, b = np.asarray(a, float), np.asarray(b, float)
    return s_cosine(a - a.mean(), b - b.mean())


def s_spearman(a, b):
    return s_corr(ranks(a), ranks(b))


def _concordance(a, b):
    """(concordant, discordant, ties only in a, ties only in b, joint ties) by brute force"""
    n = len(a)
    con = dis = ta = tb = tj = 0
    for i in range(n):
        for j in range(i + 1, n):
            da = int(a[i] > a[j]) - int(a[i] < a[j])
            db = int(b[i] > b[j]) - int(b[i] < b[j])
            if da == 0 and db == 0:
                tj += 1
            elif da == 0:
                ta += 1
            elif db == 0:
                tb += 1
            elif da == db:
                con += 1
            else:
                dis += 1
    return con, dis, ta, tb, tj


def s_tau_a(a, b):
    con, dis, ta, tb, tj = _concordance(a, b)
    n = len(a)
    return (con - dis) / (n * (n - 1) / 2.0)


def s_tau_b(a, b):
    con, dis, ta, tb, tj = _concordance(a, b)
    n0 = con + dis + ta + tb + tj
    n1 = ta + tj
    n2 = tb + tj
    den = math.sqrt((n0 - n1) * (n0 - n2))
    if den == 0:
        return float('nan')
    return (con - dis) / den


def s_rho_a(a, b):
    """closed form: 12 * sum (ra - mean)(rb - mean) / (n^3 - n) with mid-ranks"""
    ra, rb = ranks(a), ranks(b)
    n = len(ra)
    return float(12 * np.sum((ra - ra.mean()) * (rb - rb.mean())) / (n ** 3 - n))


def tie_breakings(x, limit=500):
    """all strict rankings (1..n) consistent with x; None if more than limit"""
    x = list(x)
    n = len(x)
    order = sorted(set(x))
    groups = [[i for i in range(n) if x[i] == v] for v in order]
    count = 1
    for g in groups:
        count *= math.factorial(len(g))
        if count > limit:
            return None
    results = []
    for combo in itertools.product(*[itertools.permutations(g) for g in groups]):
        r = [0] * n
        pos = 1
        for g in combo:
            for i in g:
                r[i] = pos
                pos += 1
        results.append(r)
    return results


def s_rho_a_enumerated(a, b, limit=400):
    """mean of the tie-free Spearman over all joint tie-breakings; None if too many"""
    ta, tb = tie_breakings(a, limit), tie_breakings(b, limit)
    if ta is None or tb is None or len(ta) * len(tb) > limit:
        return None
    tot = 0.0
    for r1 in ta:
        for r2 in tb:
            tot += s_corr(r1, r2)
    return tot / (len(ta) * len(tb))


def dense_v(n, sigma_k=None):
    """V[(i,j),(k,l)] = (S_ik - S_il - S_jk + S_jl)^2 element-wise"""
    if sigma_k is None:
        s = np.eye(n)
    else:
        s = np.asarray(sigma_k, float)
        if s.ndim == 1:
            s = np.diag(s)
    pr = pairs(n)
    v = np.zeros((len(pr), len(pr)))
    for x, (i, j) in enumerate(pr):
        for y, (k, l) in enumerate(pr):
            v[x, y] = (s[i, k] - s[i, l] - s[j, k] + s[j, l]) ** 2
    return v


def s_whitened(a, b, v, center=False):
    """a' V^-1 b / sqrt(a' V^-1 a * b' V^-1 b); plain mean-centring first if center"""
    a, b = np.asarray(a, float), np.asarray(b, float)
    if center:
        a = a - a.mean()
        b = b - b.mean()
    vi = np.linalg.inv(v)
    den = math.sqrt((a @ vi @ a) * (b @ vi @ b))
    return float((a @ vi @ b) / den)


def centered_kernel(vec, n):
    d = to_square(vec, n)
    h = np.eye(n) - np.ones((n, n)) / n
    return -0.5 * h @ d @ h


def _psd_sqrt(a):
    w, u = np.linalg.eigh((a + a.T) / 2)
    return (u * np.sqrt(np.maximum(w, 0))) @ u.T


def s_bures(a, b, n):
    from scipy.linalg import sqrtm
    ka, kb = centered_kernel(a, n), centered_kernel(b, n)
    ra = _psd_sqrt(ka)
    inner = np.real(np.trace(sqrtm(ra @ kb @ ra + 0j)))
    return float(inner / math.sqrt(np.trace(ka) * np.trace(kb)))


def s_bures_metric(a, b, n):
    from scipy.linalg import sqrtm
    ka, kb = centered_kernel(a, n), centered_kernel(b, n)
    ra = _psd_sqrt(ka)
    inner = np.real(np.trace(sqrtm(ra @ kb @ ra + 0j)))
    return float(np.trace(ka) + np.trace(kb) - 2 * inner)


def sim(method, a, b, sigma_k=None, n=None, v=None):
    """reference similarity between two vectors (no NaN)"""
    if method == 'cosine':
        return s_cosine(a, b)
    if method == 'corr':
        return s_corr(a, b)
    if method == 'spearman':
        return s_spearman(a, b)
    if method in ('kendall', 'tau-b'):
        return s_tau_b(a, b)
    if method == 'tau-a':
        return s_tau_a(a, b)
    if method == 'rho-a':
        return s_rho_a(a, b)
    if method in ('cosine_cov', 'corr_cov'):
        n = n or n_from_len(len(a))
        if v is None:
            v = dense_v(n, sigma_k)
        return s_whitened(a, b, v, center=(method == 'corr_cov'))
    if method == 'bures':
        return s_bures(a, b, n or n_from_len(len(a)))
    if method == 'bures_metric':
        return s_bures_metric(a, b, n or n_from_len(len(a)))
    raise ValueError(method)


def compare(method, vecs1, vecs2, sigma_k=None, n=None, keep=None):
    """matrix of reference similarities. keep: boolean mask of entries to use
    (entries deleted, for whitened measures rows/cols of V deleted)"""
    vecs1 = np.atleast_2d(np.asarray(vecs1, float))
    vecs2 = np.atleast_2d(np.asarray(vecs2, float))
    n = n or n_from_len(vecs1.shape[1])
    v = None
    if method in ('cosine_cov', 'corr_cov'):
        v = dense_v(n, sigma_k)
        if keep is not None:
            keep = np.asarray(keep, bool)
            v = v[keep][:, keep]
    if keep is not None:
        vecs1 = vecs1[:, keep]
        vecs2 = vecs2[:, keep]
    out = np.zeros((len(vecs1), len(vecs2)))
    for i, a in enumerate(vecs1):
        for j, b in enumerate(vecs2):
            out[i, j] = sim(method, a, b, sigma_k=sigma_k, n=n, v=v)
    return out


# ---- RDM resampling helpers (C04/C05/C09) -----------------------------------

def sample_rdm_vectors(vecs, n, rdm_idx, pattern_idx):
    """rebuild a bootstrap sample from source vectors: RDMs rdm_idx, conditions
    pattern_idx (with multiplicity); pairs of two copies of one condition are NaN"""
    vecs = np.atleast_2d(np.asarray(vecs, float))
    out = []
    for r in rdm_idx:
        sq = to_square(vecs[r], n)
        m = len(pattern_idx)
        row = []
        for (i, j) in pairs(m):
            if pattern_idx[i] == pattern_idx[j]:
                row.append(float('nan'))
            else:
                row.append(sq[pattern_idx[i], pattern_idx[j]])
        out.append(row)
    return np.array(out, dtype=float).reshape(len(rdm_idx), n_pairs(len(pattern_idx)))


def restrict_vector(vec, n, pattern_idx):
    sq = to_square(vec, n)
    return np.array([sq[pattern_idx[i], pattern_idx[j]] for (i, j) in pairs(len(pattern_idx))],
                    dtype=float)
