"""Shared Hypothesis strategies. All cases are plain JSON-able python values."""
import numpy as np
from hypothesis import strategies as st


# ---- numbers ---------------------------------------------------------------

@st.composite
def grid_float(draw, kmax=64, mmax=3):
    """dyadic grid value k/2^m: exact in binary, ties arise naturally"""
    k = draw(st.integers(-kmax, kmax))
    m = draw(st.integers(0, mmax))
    return k / float(2 ** m)


def any_float(lo=-100.0, hi=100.0):
    """non-dyadic floats k*1e-6 in [lo,hi]: never sub-normal or so tiny that squares
    underflow (Gram-form formulas have forward error O(eps*|x|^2), see DESIGN 1.4)"""
    return st.integers(int(lo * 10 ** 6), int(hi * 10 ** 6)).map(lambda k: k / 1e6)


@st.composite
def value_kind(draw):
    return draw(st.sampled_from(['grid', 'grid', 'float', 'smallint']))


def scalar(kind, kmax=64):
    if kind == 'grid':
        return grid_float(kmax=kmax)
    if kind == 'smallint':
        return st.integers(-4, 4).map(float)
    if kind == 'byte':      # pixel values / counts: what narrow unsigned and signed integer arrays hold
        return st.one_of(st.integers(0, 255), st.integers(-100, 127)).map(float)
    if kind == 'ubyte':
        return st.integers(0, 255).map(float)
    if kind == 'pos':
        return st.integers(1, 64).map(lambda k: k / 8.0)
    return any_float()


@st.composite
def matrix(draw, n, p, kind=None, kmax=64):
    """n x p nested list"""
    kind = kind or draw(value_kind())
    el = scalar(kind, kmax)
    return draw(st.lists(st.lists(el, min_size=p, max_size=p), min_size=n, max_size=n))


@st.composite
def vector(draw, n, kind=None, kmax=64):
    kind = kind or draw(value_kind())
    return draw(st.lists(scalar(kind, kmax), min_size=n, max_size=n))


@st.composite
def spd(draw, p, c_min=0.25):
    """SPD matrix A A^T / p + c I with bounded condition number, as nested list"""
    a = np.array(draw(matrix(p, p, kind='grid', kmax=16)))
    c = draw(st.sampled_from([c_min, 0.5, 1.0, 2.0]))
    m = a @ a.T / p + c * np.eye(p)
    m = (m + m.T) / 2
    return m.tolist()


@st.composite
def pos_vector(draw, n):
    return draw(st.lists(st.integers(1, 32).map(lambda k: k / 8.0), min_size=n, max_size=n))


@st.composite
def permutation(draw, n):
    return list(draw(st.permutations(list(range(n)))))


# ---- labels ----------------------------------------------------------------

# (two large, closely spaced values - date stamps / long ids - are labels like any other: their
#  relative difference is far below any floating-point comparison tolerance)
INT_POOL = [3, -2, 10, 0, 7, 21, 5, 100, -11, 4, 9, 12, 20240105, 20240112,
            9007199254740993, 9007199254740994]      # 64-bit ids / ns time stamps: distinct only as integers
# float-valued labels: subject / session ids loaded as doubles, time stamps, fractions, tiny steps
FLOAT_POOL = [2301001.0, 2301002.0, 0.5, 2.5, -1.25, 250001.0, 250002.0, 1e-9, 2e-9, 100.0, 7.0,
              2301003.0]
STR_POOL = ['b10', 'a', 'b9', 'c', 'B', 'zz', 'a1', 'cond', 'x', 'b', 'aa', 'd']
UNI_POOL = ['bär', 'a', 'ß2', 'c', 'Ünï', 'zz', 'π', 'cond', 'x', 'b', 'aa', 'd']


@st.composite
def label_set(draw, n, kinds=('int', 'str')):
    """n distinct labels in a generated order (appearance order != sorted order mostly).
    returns (kind, labels)"""
    kind = draw(st.sampled_from(list(kinds)))
    pool = {'int': INT_POOL, 'str': STR_POOL, 'uni': UNI_POOL, 'float': FLOAT_POOL}[kind]
    if n <= len(pool):
        idx = draw(st.lists(st.integers(0, len(pool) - 1), min_size=n, max_size=n, unique=True))
        labs = [pool[i] for i in idx]
    else:
        perm = draw(permutation(n))
        labs = [(i * 3 - 7) for i in perm] if kind == 'int' else \
            [2301000.0 + i for i in perm] if kind == 'float' else ['s%03d' % i for i in perm]
    return kind, labs


def as_desc(values, container):
    """descriptor container type: 'list' or 'array'"""
    if container == 'array':
        return np.array(values)
    return list(values)


container = st.sampled_from(['list', 'array'])


@st.composite
def design(draw, n_cond_range=(2, 5), reps_range=(1, 3), balanced=None, kinds=('int', 'str')):
    """observation -> condition labelling with a generated row order.
    returns dict(kind, labels (distinct, in generation order), obs (label per row), reps)"""
    n_cond = draw(st.integers(*n_cond_range))
    kind, labs = draw(label_set(n_cond, kinds))
    if balanced is None:
        balanced = draw(st.booleans())
    if balanced:
        r = draw(st.integers(*reps_range))
        reps = [r] * n_cond
    else:
        reps = draw(st.lists(st.integers(*reps_range), min_size=n_cond, max_size=n_cond))
    rows = []
    for lab, r in zip(labs, reps):
        rows += [lab] * r
    perm = draw(permutation(len(rows)))
    obs = [rows[i] for i in perm]
    return dict(kind=kind, labels=labs, obs=obs, reps=reps, balanced=bool(len(set(reps)) == 1))


def is_sorted_labels(labels):
    try:
        return list(labels) == sorted(labels)
    except TypeError:
        return False


def relayout(a):
    """the same values in another memory layout, chosen deterministically from the shape: C order,
    Fortran order, a strided view into a wider array, or the transposed view of a (columns x rows)
    array -- what slicing, transposing or loading from MATLAB files hands to the library"""
    a = np.asarray(a)
    if a.ndim != 2 or a.size == 0:
        return a
    kind = (3 * a.shape[0] + a.shape[1]) % 4
    if kind == 1:
        return np.asfortranarray(a)
    if kind == 2:
        wide = np.zeros((a.shape[0], 2 * a.shape[1]), dtype=a.dtype)
        wide[:, 1::2] = 1
        wide[:, ::2] = a
        return wide[:, ::2]
    if kind == 3:
        return np.ascontiguousarray(a.T).T
    return a
