"""Core plumbing of the /verif property-based checks.

SubCheck = (strategy -> JSON case) + check(case) + classify(case).
Everything random comes from Hypothesis, seeded from VERIF_SEED.
"""
import os
import sys

# --- environment pinning: must happen before numpy is imported ---------------
for _v in ('OMP_NUM_THREADS', 'OPENBLAS_NUM_THREADS', 'MKL_NUM_THREADS',
           'NUMEXPR_NUM_THREADS'):
    os.environ.setdefault(_v, '1')
os.environ.setdefault('RSATOOLBOX_VERIF', '1')

VERIF_DIR = os.path.dirname(os.path.dirname(os.path.abspath(__file__)))
REPO = os.environ.get('VERIF_REPO', '/repo')
_src = os.path.join(REPO, 'src')
if _src not in sys.path:
    sys.path.insert(0, _src)

import hashlib  # noqa: E402
import json  # noqa: E402
import math  # noqa: E402
import signal  # noqa: E402
import time  # noqa: E402
import traceback  # noqa: E402
import warnings  # noqa: E402
from collections import Counter  # noqa: E402

import numpy as np  # noqa: E402

warnings.filterwarnings('ignore')


class Violation(Exception):
    """the property is broken on this case"""

    def __init__(self, msg, sig='generic'):
        super().__init__(msg)
        self.msg = str(msg)
        self.sig = sig


class Reject(Exception):
    """the library (or the harness) cleanly refuses the case: outside domain"""

    def __init__(self, msg='', kind='rejected'):
        super().__init__(msg)
        self.kind = kind


class Inconclusive(Exception):
    """watchdog fired; neither pass nor fail"""


class _Alarm(Exception):
    pass


def _alarm_handler(signum, frame):
    raise _Alarm()


class watchdog:
    """abort a library call that may legitimately loop; -> Inconclusive"""

    def __init__(self, seconds):
        self.seconds = int(seconds)

    def __enter__(self):
        self.old = signal.signal(signal.SIGALRM, _alarm_handler)
        signal.alarm(self.seconds)

    def __exit__(self, et, ev, tb):
        signal.alarm(0)
        signal.signal(signal.SIGALRM, self.old)
        if et is _Alarm:
            raise Inconclusive('watchdog %ds' % self.seconds)
        return False


def lib(fn, *args, on_error='reject', sig=None, **kwargs):
    """call a library function.

    on_error='reject'   : an exception is a clean refusal (Reject)
    on_error='violation': the property places the input in the domain, so an
                          exception is a Violation with signature `sig`
    """
    try:
        return fn(*args, **kwargs)
    except (Violation, Reject, Inconclusive, _Alarm):
        raise
    except Exception as e:  # noqa: BLE001
        name = getattr(fn, '__name__', str(fn))
        if on_error == 'violation':
            raise Violation('%s raised %s: %s' % (name, type(e).__name__, e),
                            sig or ('raises:%s:%s' % (name, type(e).__name__)))
        raise Reject('%s raised %s: %s' % (name, type(e).__name__, e),
                     kind='rejected:%s:%s' % (name, type(e).__name__))


# ----------------------------------------------------------------------------
# numeric helpers

def close(a, b, rtol=1e-9, atol=1e-10):
    """|a-b| <= atol + rtol*max(|a|,|b|); NaN matches only NaN; inf only same inf"""
    a = np.asarray(a, dtype=float)
    b = np.asarray(b, dtype=float)
    if a.shape != b.shape:
        return False
    na, nb = np.isnan(a), np.isnan(b)
    if not np.array_equal(na, nb):
        return False
    a = np.where(na, 0.0, a)
    b = np.where(nb, 0.0, b)
    inf = np.isinf(a) | np.isinf(b)
    if inf.any():
        if not np.array_equal(a[inf], b[inf]):
            return False
        a = np.where(inf, 0.0, a)
        b = np.where(inf, 0.0, b)
    return bool(np.all(np.abs(a - b) <= atol + rtol * np.maximum(np.abs(a), np.abs(b))))


def maxdiff(a, b):
    a = np.asarray(a, dtype=float)
    b = np.asarray(b, dtype=float)
    if a.shape != b.shape:
        return float('inf')
    with np.errstate(invalid='ignore'):
        d = np.abs(a - b)
    d = d[~(np.isnan(a) & np.isnan(b))]
    if d.size == 0:
        return 0.0
    if np.isnan(d).any():
        return float('inf')
    return float(d.max())


def require(cond, msg, sig='generic'):
    if not cond:
        raise Violation(msg, sig)


def require_close(a, b, what, sig, rtol=1e-9, atol=1e-10):
    if not close(a, b, rtol, atol):
        raise Violation('%s: library %s vs oracle %s (max diff %.3g)' % (
            what, _short(a), _short(b), maxdiff(a, b)), sig)


def _short(x, n=8):
    x = np.asarray(x)
    flat = x.ravel()
    s = np.array2string(flat[:n], precision=6, separator=',')
    if flat.size > n:
        s += '...(%d)' % flat.size
    return s


def arr(x, dtype=float):
    return np.array(x, dtype=dtype)


def tolist(x):
    """numpy -> nested python lists / scalars (JSON-able, exact floats)"""
    if isinstance(x, np.ndarray):
        return x.tolist()
    if isinstance(x, (np.integer,)):
        return int(x)
    if isinstance(x, (np.floating,)):
        return float(x)
    if isinstance(x, (np.bool_,)):
        return bool(x)
    if isinstance(x, (np.str_,)):
        return str(x)
    if isinstance(x, dict):
        return {str(k): tolist(v) for k, v in x.items()}
    if isinstance(x, (list, tuple)):
        return [tolist(v) for v in x]
    return x


def case_json(case):
    return json.dumps(tolist(case), sort_keys=True, allow_nan=True)


def case_hash(case):
    return hashlib.sha1(case_json(case).encode()).hexdigest()


# ----------------------------------------------------------------------------

class SubCheck:
    def __init__(self, name, strategy, check, classify=None, quick=100,
                 thorough=None, max_reject_frac=0.3, weight=1.0, doc=''):
        self.name = name
        self.strategy = strategy          # hypothesis strategy or None (enumeration)
        self.check = check
        self.classify = classify or (lambda case: ([], True))
        self.quick = quick
        self.thorough = thorough if thorough is not None else quick * 20
        self.max_reject_frac = max_reject_frac
        self.doc = doc
        self.enumerate = None             # optional: fn(tier) -> iterable of cases (exhaustive)


class Enumeration(SubCheck):
    """finite space enumerated completely (no Hypothesis)"""

    def __init__(self, name, enumerate_fn, check, classify=None, doc='',
                 tiers=('quick', 'thorough')):
        super().__init__(name, None, check, classify, quick=0, thorough=0, doc=doc)
        self.enumerate = enumerate_fn
        self.tiers = tiers


class Stats:
    def __init__(self):
        self.evals = 0
        self.nontrivial = set()
        self.classes = Counter()
        self.rejected = Counter()
        self.inconclusive = 0
        self.known_hits = Counter()
        self.samples = []
        self.exhaustive = []
        self.reject_example = None

    def to_dict(self):
        return dict(evals=self.evals, nontrivial=sorted(self.nontrivial),
                    classes=dict(self.classes), rejected=dict(self.rejected),
                    inconclusive=self.inconclusive, known_hits=dict(self.known_hits),
                    samples=self.samples, exhaustive=self.exhaustive,
                    reject_example=self.reject_example)

    @staticmethod
    def merge(dicts):
        s = Stats()
        for d in dicts:
            s.evals += d['evals']
            s.nontrivial.update(d['nontrivial'])
            s.classes.update(d['classes'])
            s.rejected.update(d['rejected'])
            s.inconclusive += d['inconclusive']
            s.known_hits.update(d['known_hits'])
            for smp in d['samples']:
                if len(s.samples) < 4:
                    s.samples.append(smp)
            s.exhaustive.extend(d['exhaustive'])
            if s.reject_example is None:
                s.reject_example = d['reject_example']
        return s


def _exec_case(sc, case, stats, known_sigs, found_sigs):
    """run one case; returns None or (case, Violation)"""
    stats.evals += 1
    try:
        labels, nt = sc.classify(case)
    except Exception:  # noqa: BLE001
        labels, nt = (['classify-error'], False)
    for lab in labels:
        stats.classes[lab] += 1
    if nt:
        stats.nontrivial.add(case_hash(case))
        if len(stats.samples) < 3:
            js = case_json(case)
            if len(js) < 3000:
                stats.samples.append({'subcheck': sc.name, 'case': json.loads(js)})
    try:
        sc.check(case)
    except Reject as r:
        stats.rejected[r.kind] += 1
        if stats.reject_example is None:
            stats.reject_example = {'subcheck': sc.name, 'case': tolist(case),
                                    'message': str(r)}
        return None
    except Inconclusive:
        stats.inconclusive += 1
        return None
    except Violation as v:
        if v.sig in known_sigs:
            stats.known_hits[v.sig] += 1
            return None
        if v.sig in found_sigs:
            return None
        return (case, v)
    except (KeyboardInterrupt, SystemExit, MemoryError):
        raise
    except Exception as e:  # noqa: BLE001  oracle crashed on library output
        tb = traceback.extract_tb(e.__traceback__)
        where = '%s:%d' % (os.path.basename(tb[-1].filename), tb[-1].lineno) if tb else '?'
        v = Violation('unexpected %s at %s: %s' % (type(e).__name__, where, e),
                      'crash:%s:%s' % (sc.name, type(e).__name__))
        if v.sig in found_sigs or v.sig in known_sigs:
            return None
        return (case, v)
    return None


def run_subcheck_shard(sc, n, seed, tier, known_sigs, max_rounds=3):
    """returns (stats_dict, [violation dicts])"""
    import hypothesis
    from hypothesis import given, settings, HealthCheck, Phase
    stats = Stats()
    violations = []
    found_sigs = set()

    if sc.enumerate is not None:
        if tier not in sc.tiers:
            return stats.to_dict(), []
        count = 0
        for case in sc.enumerate(tier, seed):
            count += 1
            r = _exec_case(sc, case, stats, known_sigs, found_sigs)
            if r is not None:
                case_, v = r
                found_sigs.add(v.sig)
                violations.append(dict(subcheck=sc.name, case=tolist(case_),
                                       message=v.msg, signature=v.sig,
                                       seed=seed, tier=tier))
        stats.exhaustive.append({'subcheck': sc.name, 'cases': count})
        return stats.to_dict(), violations

    for rnd in range(max_rounds):
        state = {'fail': None}
        phases = [Phase.generate, Phase.shrink]

        def body(case):
            r = _exec_case(sc, case, stats, known_sigs, found_sigs)
            if r is not None:
                state['fail'] = r
                raise r[1]

        test = given(sc.strategy)(body)
        test = settings(max_examples=n, database=None, deadline=None,
                        derandomize=False, report_multiple_bugs=False,
                        print_blob=False, phases=phases,
                        suppress_health_check=list(HealthCheck))(test)
        test = hypothesis.seed(seed + 7919 * rnd)(test)
        try:
            test()
            break
        except Violation:
            case_, v = state['fail']
            found_sigs.add(v.sig)
            violations.append(dict(subcheck=sc.name, case=tolist(case_),
                                   message=v.msg, signature=v.sig, seed=seed,
                                   tier=tier))
        except hypothesis.errors.Unsatisfiable as e:
            raise HarnessError('%s: generator unsatisfiable: %s' % (sc.name, e))
        except BaseException as e:  # noqa: BLE001
            # Hypothesis reports FlakyFailure / Flaky (an exception group) when the same case
            # fails on one execution and passes on the next: the library under test is not a
            # function of its inputs (hidden state, unseeded RNG). The last failing case is kept.
            if isinstance(e, (KeyboardInterrupt, SystemExit, MemoryError)):
                raise
            if state['fail'] is None or 'Flaky' not in type(e).__name__:
                raise
            case_, v = state['fail']
            sig = v.sig + ':nondeterministic'
            found_sigs.add(v.sig)
            found_sigs.add(sig)
            violations.append(dict(subcheck=sc.name, case=tolist(case_),
                                   message=v.msg + ' (not reproducible on immediate re-execution: '
                                   'library behaviour depends on hidden state)', signature=v.sig,
                                   seed=seed, tier=tier))
    return stats.to_dict(), violations


class HarnessError(Exception):
    pass


# ----------------------------------------------------------------------------
# known findings

def load_known(prop_id):
    path = os.path.join(VERIF_DIR, 'known_findings.json')
    if not os.path.exists(path):
        return [], []
    with open(path) as f:
        kf = json.load(f)
    known = [k for k in kf.get('known', []) if k['property'] == prop_id]
    fixed = [k for k in kf.get('fixed', []) if k['property'] == prop_id]
    return known, fixed


def write_replay(prop_id, vio):
    d = os.path.join(VERIF_DIR, 'replays', prop_id)
    os.makedirs(d, exist_ok=True)
    body = dict(property=prop_id, **vio)
    h = hashlib.sha1(case_json(body['case']).encode()).hexdigest()[:10]
    safe = ''.join(c if c.isalnum() or c in '-_' else '_' for c in vio['subcheck'])
    path = os.path.join(d, '%s-%s.json' % (safe, h))
    with open(path, 'w') as f:
        json.dump(body, f, indent=1, allow_nan=True, sort_keys=True)
    return os.path.relpath(path, VERIF_DIR)


def replay_file(prop_id, subchecks, path):
    """re-execute check_case on a replay / regression file. returns Violation or None"""
    with open(path) as f:
        body = json.load(f)
    name = body['subcheck']
    sc = {s.name: s for s in subchecks}.get(name)
    if sc is None:
        raise HarnessError('replay %s: unknown subcheck %s' % (path, name))
    try:
        sc.check(body['case'])
    except (Reject, Inconclusive):
        return None
    except Violation as v:
        return v
    except Exception as e:  # noqa: BLE001
        return Violation('unexpected %s: %s' % (type(e).__name__, e),
                         'crash:%s:%s' % (sc.name, type(e).__name__))
    return None


def write_evidence(prop_id, tier, seed, rule, stats_by_sc, n_viol, wall, extra=None,
                   assumptions=None):
    total = Stats.merge(list(stats_by_sc.values()))
    samples = []
    for name, d in stats_by_sc.items():
        for smp in d['samples'][:2]:
            samples.append(smp)
    samples = samples[:12]
    if not samples:
        samples = [{'note': 'no non-trivial sample small enough to print'}]
    cov = dict(
        evaluations=int(total.evals),
        distinct_nontrivial=int(len(total.nontrivial)),
        rule=rule,
        samples=samples,
        classes={k: int(v) for k, v in sorted(total.classes.items())},
        per_subcheck={name: dict(evaluations=d['evals'],
                                 distinct_nontrivial=len(set(d['nontrivial'])),
                                 rejected=d['rejected'],
                                 inconclusive=d['inconclusive'],
                                 known_region_hits=d['known_hits'])
                      for name, d in stats_by_sc.items()},
        rejected={k: int(v) for k, v in total.rejected.items()},
        inconclusive=int(total.inconclusive),
        known_region_hits={k: int(v) for k, v in total.known_hits.items()},
        exhaustive_subspaces=total.exhaustive,
        exhaustive=False,
    )
    if extra:
        cov.update(extra)
    ev = dict(property_id=prop_id, tier=tier, seed=int(seed), level='exploration',
              coverage=cov, assumptions=assumptions or [], wall_s=round(wall, 2),
              violations=int(n_viol))
    d = os.path.join(VERIF_DIR, 'evidence')
    if os.path.realpath(REPO) != '/repo':
        # mutation / seeded-change runs against a scratch tree never touch the real evidence
        d = os.path.join(VERIF_DIR, 'replays', '_scratch_evidence')
    os.makedirs(d, exist_ok=True)
    with open(os.path.join(d, prop_id + '.json'), 'w') as f:
        json.dump(sanitize_nan(ev), f, indent=1, allow_nan=False, default=_nan_safe,
                  sort_keys=False)


def _nan_safe(o):
    return str(o)


def sanitize_nan(o):
    """evidence must be strict JSON: encode NaN/inf as strings"""
    if isinstance(o, float):
        if math.isnan(o):
            return 'NaN'
        if math.isinf(o):
            return 'Infinity' if o > 0 else '-Infinity'
        return o
    if isinstance(o, dict):
        return {k: sanitize_nan(v) for k, v in o.items()}
    if isinstance(o, (list, tuple)):
        return [sanitize_nan(v) for v in o]
    return o
