#!/usr/bin/env python3
"""print the prompt for a seeding agent (contains only the property text and the worktree path)"""
import json, sys
pid = sys.argv[1]
rnd = sys.argv[2] if len(sys.argv) > 2 else '1'
wt = '/tmp/seed/' + pid
import os
ideas = json.load(open('/tmp/seed_ideas.json')).get(pid, []) if rnd != '1' and os.path.exists('/tmp/seed_ideas.json') else []
avoid = ('\n\nAn earlier round already produced the following changes for this property; yours must be DIFFERENT in mechanism and code site (do not repeat or vary these):\n' + '\n'.join('  - ' + i for i in ideas)) if ideas else ''
extra = ('\n\nPrefer changes whose trigger is an everyday-but-rarely-tested input class or usage pattern rather than an exotic one: other dtypes (integer, bool, float32, narrow ints), label types (strings, floats, dates as ints, negative or very large numbers, mixed case), containers (lists vs arrays vs tuples, pandas objects), memory layouts (Fortran order, views, non-contiguous slices), sizes (1, 2, >16, >255 items), value scales (very small or very large units), objects produced by earlier library calls (subsets, bootstrap samples, merged or reloaded objects), options given as None / default vs explicit, repeated calls on the same objects, or several cooperating steps. Aim for a change that a careful reviewer could plausibly approve.') if rnd not in ('1', '2', '3') else ''
p = [json.loads(l) for l in open('/verif/properties.jsonl') if json.loads(l)['id'] == pid][0]
print(f"""You are testing how well a semantic property of the Python library rsatoolbox (Representational Similarity Analysis) is guarded. You have your own scratch git worktree of the library at {wt} (source in {wt}/src/rsatoolbox, tests in {wt}/tests). Work ONLY inside {wt}; never read or write /repo or /verif or any other directory outside {wt} (reading the installed third-party packages under /venv is fine). The interpreter is /venv/bin/python; run code against your worktree with PYTHONPATH={wt}/src (check that rsatoolbox.__file__ points into your worktree). There is no network.

The property:

TITLE: {p['title']}

STATEMENT: {p['statement']}

QUANTIFIED OVER: {p['quantifier']['text']}

Your task: produce TWO independent, realistic changes to the library source (each its own patch, touching different mechanisms or code sites) that BREAK this property while the library still imports and the existing test suite still passes completely. Think of the kind of regression a well-meaning refactoring, optimisation or 'small cleanup' could introduce. Each change must need something specific to manifest - an unusual but valid input (particular sizes, label types or orders, ties, unbalanced designs, NaN positions, option combinations), a multi-step sequence of operations, or two cooperating code sites that each look fine alone - NOT something that ordinary use or the most basic call would expose at once. Do not edit tests, do not add files to the package, do not touch the compiled extension (src/rsatoolbox/cengine/*.so, *.pyx, *.c); change only .py files under src/rsatoolbox. Keep each change small (a few lines). Never use `git stash` (the stash is shared between worktrees); undo a change with `git -C {wt} checkout -- src`.{extra}{avoid}

For each change i in (1, 2) deliver, inside {wt}/seed/:
  - change<i>.diff : unified diff produced with `git -C {wt} diff -- src > seed/change<i>.diff` (relative to the repo root, applies with `git apply`), containing only that change;
  - demo<i>.py : a small self-contained program (no pytest needed) that exits 0 on the unchanged code and exits 1 (printing what went wrong) with the change applied - it demonstrates the violation of the property through the public API;
  - notes<i>.md : what the change does, which part of the property it breaks, and exactly what is needed for it to manifest.
Procedure for each change: apply it in the worktree, run the full test suite `cd {wt} && PYTHONPATH={wt}/src /venv/bin/python -m pytest -q -p no:cacheprovider tests` (takes 1-3 minutes; the clean worktree already has a handful of failing or erroring tests in test_demo and test_vis caused by the sandbox - run the suite once on the clean worktree first to get the baseline list; with your change the set of passing tests must be exactly the same), run the demo (must exit 1), save the diff, then `git -C {wt} checkout -- src` and run the demo again (must exit 0). Leave the worktree clean (no applied change) at the end, with only the seed/ directory added. In your final message list the files and summarise each change in two sentences.""")
