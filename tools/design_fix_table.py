#!/usr/bin/env python3
"""rewrite the fix table of DESIGN.md section 6.2 from /repo's fix: commits and known_findings.json"""
import json, re, subprocess
log = subprocess.check_output(['git', '-C', '/repo', 'log', '--reverse', '--format=%h|%s', '6d869662..HEAD'], text=True).strip().splitlines()
kf = json.load(open('/verif/known_findings.json'))
by = {}
for e in kf['fixed']:
    by.setdefault(e['commit'][:8], set()).add(e['property'])
rows = ['| %s | %s | %s |' % (h, ', '.join(sorted(by.get(h, []))) or '?', s[5:]) for h, s in (l.split('|', 1) for l in log)]
s = open('/verif/DESIGN.md').read()
a = s.index('| commit | property | what was repaired |')
b = s.index('\n\n', a)
s = s[:a] + '| commit | property | what was repaired |\n|---|---|---|\n' + '\n'.join(rows) + s[b:]
s = re.sub(r'as `fixed` \(a fixed entry suppresses nothing\)\. \d+ commits:', 'as `fixed` (a fixed entry suppresses nothing). %d commits:' % len(rows), s)
open('/verif/DESIGN.md', 'w').write(s)
print(len(rows), 'rows;', sum('?' in r.split('|')[2] for r in rows), 'unmapped')
