#!/usr/bin/env python3
"""maintain known_findings.json
  tools/kf.py fixed PROP COMMIT SIGNATURE REGRESSION "what failed"
  tools/kf.py known PROP SIGNATURE PROBE "what fails"
"""
import json, sys
p = '/verif/known_findings.json'
kf = json.load(open(p))
kind = sys.argv[1]
if kind == 'fixed':
    prop, commit, sig, reg, what = sys.argv[2:7]
    kf['fixed'] = [e for e in kf['fixed'] if not (e['property'] == prop and e['signature'] == sig and e['regression'] == reg)]
    kf['fixed'].append(dict(property=prop, commit=commit, signature=sig, regression=reg,
                            what='fixed: property=%s %s %s' % (prop, commit, what)))
elif kind == 'known':
    prop, sig, probe, what = sys.argv[2:6]
    kf['known'] = [e for e in kf['known'] if not (e['property'] == prop and e['signature'] == sig)]
    kf['known'].append(dict(property=prop, signature=sig, probe=probe, what=what))
json.dump(kf, open(p, 'w'), indent=1)
