#!/usr/bin/env python3
"""dev tool: run checks against a mutated scratch copy of /repo/src.

  tools/mutate.py --patch FILE  ID [ID...]        apply a unified diff (paths relative to repo root)
  tools/mutate.py --revert SHA  ID [ID...]        reverse-apply one /repo commit (pre-fix code)
  tools/mutate.py --sed 'FILE' 'OLD' 'NEW' ID...  literal single replacement in src-relative FILE
The scratch copy lives under /tmp and is removed afterwards.
"""
import os, shutil, subprocess, sys, tempfile

def main():
    a = sys.argv[1:]
    mode = a.pop(0)
    scratch = tempfile.mkdtemp(prefix='vf_mut_')
    try:
        subprocess.check_call(['rsync', '-a', '--exclude', '__pycache__', '/repo/src', scratch + '/'])
        if mode == '--patch':
            patch = os.path.abspath(a.pop(0))
            subprocess.check_call(['patch', '-s', '-p1', '-d', scratch, '-i', patch])
        elif mode == '--revert':
            sha = a.pop(0)
            diff = subprocess.check_output(['git', '-C', '/repo', 'diff', sha + '~', sha, '--', 'src'])
            subprocess.run(['patch', '-s', '-R', '-p1', '-d', scratch], input=diff, check=True)
        elif mode == '--sed':
            f, old, new = a.pop(0), a.pop(0), a.pop(0)
            path = os.path.join(scratch, 'src', 'rsatoolbox', f)
            s = open(path).read()
            assert s.count(old) >= 1, 'pattern not found'
            open(path, 'w').write(s.replace(old, new, 1))
        else:
            sys.exit(__doc__)
        env = dict(os.environ, VERIF_REPO=scratch)
        rc_all = 0
        for pid in a:
            extra = os.environ.get('MUT_ARGS', '').split()
            r = subprocess.run([os.path.join(os.path.dirname(__file__), '..', 'check'), pid] + extra,
                               env=env, capture_output=True, text=True)
            viol = [l for l in r.stdout.splitlines() if l.startswith('VIOLATION') or '[' in l and ']' in l and '/' in l.split(':')[0]]
            print('== %s exit=%d %s' % (pid, r.returncode, 'KILLED' if r.returncode == 1 else 'SURVIVED' if r.returncode == 0 else 'ERROR'))
            for l in r.stdout.splitlines()[-12:]:
                print('   ', l[:300])
            if r.returncode == 2:
                print(r.stderr[-2000:])
    finally:
        shutil.rmtree(scratch, ignore_errors=True)

main()
