#!/usr/bin/env python3
"""dev tool: run the quick check of every kept seeded change, record the verdict in its meta.json
and write seeded/RESULTS.md"""
import glob, json, os, shutil, subprocess, sys, tempfile
from concurrent.futures import ThreadPoolExecutor
here = os.path.dirname(os.path.dirname(os.path.abspath(__file__)))
names = sorted(os.path.dirname(p) for p in glob.glob(os.path.join(here, 'seeded', '*', 'patch.diff')))
if len(sys.argv) > 1:
    names = [n for n in names if any(a in n for a in sys.argv[1:])]
repo_head = subprocess.check_output(['git', '-C', '/repo', 'rev-parse', '--short', 'HEAD'], text=True).strip()

def one(d):
    meta = json.load(open(os.path.join(d, 'meta.json')))
    scratch = tempfile.mkdtemp(prefix='vf_seed_')
    try:
        subprocess.check_call(['rsync', '-a', '--exclude', '__pycache__', '/repo/src', scratch + '/'])
        r = subprocess.run(['patch', '-s', '-p1', '-d', scratch, '-i', os.path.join(d, 'patch.diff')],
                           capture_output=True, text=True)
        if r.returncode != 0:
            return d, meta, dict(verdict='PATCH-DOES-NOT-APPLY')
        env = dict(os.environ, PYTHONPATH=os.path.join(scratch, 'src'))
        dm = subprocess.run(['/venv/bin/python', os.path.join(d, 'demo.py')], env=env, cwd=scratch,
                            capture_output=True, text=True)
        res = dict(demo_exit_with_change=dm.returncode, checks={})
        for pid in meta.get('checks') or [meta['property']]:
            env = dict(os.environ, VERIF_REPO=scratch, VERIF_JOBS='4')
            c = subprocess.run([os.path.join(here, 'check'), pid], env=env, capture_output=True, text=True)
            sigs = sorted({l[l.rfind('[') + 1:l.rfind(']')] for l in c.stdout.splitlines()
                           if (l.startswith(pid + '/') or l.startswith('regression')) and '[' in l})
            res['checks'][pid] = dict(exit=c.returncode, signatures=sigs[:8])
        res['verdict'] = ('KILLED' if any(v['exit'] == 1 for v in res['checks'].values()) else
                          'NEUTRALISED' if dm.returncode == 0 else
                          'OUT-OF-DOMAIN' if meta.get('out_of_domain') else 'SURVIVED')
        return d, meta, res
    finally:
        shutil.rmtree(scratch, ignore_errors=True)

with ThreadPoolExecutor(4) as ex:
    results = list(ex.map(one, names))
for d, meta, res in results:
    res['repo_head'] = repo_head
    meta['result'] = res
    json.dump(meta, open(os.path.join(d, 'meta.json'), 'w'), indent=1)
    print(os.path.basename(d), res['verdict'])
# the table is rebuilt from every meta.json (so a partial run keeps the other rows)
rows = []
for d in sorted(os.path.dirname(p) for p in glob.glob(os.path.join(here, 'seeded', '*', 'meta.json'))):
    meta = json.load(open(os.path.join(d, 'meta.json')))
    res = meta.get('result') or {}
    sig = '; '.join('%s: %s' % (k, ', '.join(v['signatures'][:3])) for k, v in res.get('checks', {}).items())
    if res.get('verdict') == 'OUT-OF-DOMAIN':
        sig = 'not claimed: ' + meta['out_of_domain']
    rows.append('| %s | %s | %s | %s | %s |' % (os.path.basename(d), meta['property'], res.get('verdict', 'not run'),
                                             res.get('repo_head', ''), sig))
with open(os.path.join(here, 'seeded', 'RESULTS.md'), 'w') as f:
    f.write('# Seeded changes vs. quick checks\n\n')
    f.write('NEUTRALISED = the change no longer breaks the property on the repaired tree (its demo passes), '
            'because a cooperating defect it relied on was fixed. OUT-OF-DOMAIN = the change only shows for '
            'inputs the unchanged library already handles inconsistently, so no check asserts anything there '
            '(reason in the last column).\n\n')
    f.write('| seeded change | property | verdict | repo HEAD | signatures reported |\n|---|---|---|---|---|\n')
    f.write('\n'.join(rows) + '\n')
