#!/bin/bash
# usage: tools/apply_fix.sh fixes/X.diff "fix: message" [pytest targets...]
set -e
diff=$(readlink -f "$1"); msg="$2"; shift 2
cd /repo
test -z "$(git status --porcelain -- src)" || { echo "repo dirty"; exit 1; }
patch -p1 --no-backup-if-mismatch -i "$diff" | sed 's/^/   /'
find src -name '*.orig' -o -name '*.rej' | grep . && { echo "REJECTS"; git checkout -- src; exit 1; }
if [ $# -gt 0 ]; then
  /venv/bin/python -m pytest -q -p no:cacheprovider -x "$@" 2>&1 | tail -2
fi
git commit -qam "$msg"
git log --oneline -1
