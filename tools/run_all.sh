#!/bin/bash
# dev tool: run every registered quick check at the given seeds; summary lines only
# usage: tools/run_all.sh "1 2 3" [ID...]
cd "$(dirname "$0")/.."
seeds=${1:-1}; shift
ids=${@:-$(python3 -c "import json;print(' '.join(c['property_id'] for c in json.load(open('MANIFEST.json'))['checks']))")}
for s in $seeds; do for id in $ids; do
  out=$(VERIF_SEED=$s ./check $id 2>&1); rc=$?
  echo "seed=$s $id rc=$rc :: $(echo "$out" | tail -1)"
  if [ $rc -ne 0 ]; then echo "$out" | grep -E "VIOLATION|HARNESS|\[" | head -8; fi
done; done
