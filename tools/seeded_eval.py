#!/usr/bin/env python3
"""dev tool: run checks against every kept seeded change.
usage: tools/seeded_eval.py [seeded/<name> ...] [--checks C01,C02] [--tier quick]
For each seeded/<name>/patch.diff: copy /repo/src to a scratch dir, apply, run the checks named in
meta.json["checks"] (default: the property it breaks), print KILLED/SURVIVED, remove the scratch dir."""
import json, os, shutil, subprocess, sys, tempfile, glob
here = os.path.dirname(os.path.dirname(os.path.abspath(__file__)))
args = sys.argv[1:]
tier = 'quick'
checks_override = None
names = []
while args:
    a = args.pop(0)
    if a == '--tier': tier = args.pop(0)
    elif a == '--checks': checks_override = args.pop(0).split(',')
    else: names.append(a.rstrip('/'))
if not names:
    names = sorted(os.path.dirname(p) for p in glob.glob(os.path.join(here, 'seeded', '*', 'patch.diff')))
for name in names:
    d = name if os.path.isabs(name) else os.path.join(here, name)
    meta = json.load(open(os.path.join(d, 'meta.json')))
    checks = checks_override or meta.get('checks') or [meta['property']]
    scratch = tempfile.mkdtemp(prefix='vf_seed_')
    try:
        subprocess.check_call(['rsync', '-a', '--exclude', '__pycache__', '/repo/src', scratch + '/'])
        r = subprocess.run(['patch', '-s', '-p1', '-d', scratch, '-i', os.path.join(d, 'patch.diff')],
                           capture_output=True, text=True)
        if r.returncode != 0:
            print('%s: PATCH DOES NOT APPLY: %s' % (os.path.basename(d), r.stdout[-300:]))
            continue
        for pid in checks:
            env = dict(os.environ, VERIF_REPO=scratch)
            r = subprocess.run([os.path.join(here, 'check'), pid, '--tier', tier], env=env,
                               capture_output=True, text=True)
            verdict = {0: 'SURVIVED', 1: 'KILLED'}.get(r.returncode, 'ERROR')
            sigs = [l for l in r.stdout.splitlines() if l.startswith(pid + '/') or l.startswith('regression')]
            print('%s: %s %s %s' % (os.path.basename(d), pid, verdict, r.stdout.strip().splitlines()[-1][-80:]))
            for l in sigs[:4]:
                print('     ', l[:260])
            if r.returncode == 2:
                print(r.stdout[-1500:], r.stderr[-1500:])
    finally:
        shutil.rmtree(scratch, ignore_errors=True)
