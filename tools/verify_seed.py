#!/usr/bin/env python3
"""dev tool: confirm a seeded change in its scratch worktree and keep it under /verif/seeded/.
usage: tools/verify_seed.py <PROP> <worktree> <i> <slug>
 - worktree must be clean; applies seed/change<i>.diff, runs the repo test suite (every BASELINE
   stable_pass test must still pass), runs seed/demo<i>.py (must exit 1), reverts, demo must exit 0.
 - on success copies patch.diff, demo.py, notes.md, meta.json to /verif/seeded/<PROP>-<slug>/"""
import json, os, subprocess, sys, shutil, xml.etree.ElementTree as ET
prop, wt, i, slug = sys.argv[1:5]
env = dict(os.environ, PYTHONPATH=os.path.join(wt, 'src'), PYTHONDONTWRITEBYTECODE='1')
def sh(cmd, **kw):
    return subprocess.run(cmd, shell=True, cwd=wt, env=env, capture_output=True, text=True, **kw)
assert sh('git status --porcelain -- src').stdout.strip() == '', 'worktree not clean'
diff = os.path.join(wt, 'seed', 'change%s.diff' % i)
demo = os.path.join(wt, 'seed', 'demo%s.py' % i)
r = sh('git apply %s' % diff); assert r.returncode == 0, r.stderr
try:
    junit = os.path.join(wt, 'seed', 'junit%s.xml' % i)
    sh('/venv/bin/python -m pytest -q -p no:cacheprovider --timeout=900 --continue-on-collection-errors --junitxml=%s tests' % junit)
    passed = set()
    for tc in ET.parse(junit).getroot().iter('testcase'):
        if not any(ch.tag in ('failure', 'error', 'skipped') for ch in tc):
            passed.add('%s::%s' % (tc.get('classname'), tc.get('name')))
    base = json.load(open('/root/.vp/BASELINE.json'))['stable_pass']
    missing = [t for t in base if t not in passed]
    d1 = sh('/venv/bin/python %s' % demo)
finally:
    sh('git checkout -- src')
d0 = sh('/venv/bin/python %s' % demo)
ok = (not missing) and d1.returncode == 1 and d0.returncode == 0
print('tests: %d baseline tests pass, %d missing %s' % (len(base) - len(missing), len(missing), missing[:5]))
print('demo with change: exit %d | %s' % (d1.returncode, (d1.stdout + d1.stderr).strip().splitlines()[-1:] ))
print('demo without change: exit %d' % d0.returncode)
print('VERDICT', 'KEEP' if ok else 'DROP')
if ok:
    out = os.path.join('/verif/seeded', '%s-%s' % (prop, slug))
    os.makedirs(out, exist_ok=True)
    shutil.copy(diff, os.path.join(out, 'patch.diff'))
    shutil.copy(demo, os.path.join(out, 'demo.py'))
    n = os.path.join(wt, 'seed', 'notes%s.md' % i)
    if os.path.exists(n): shutil.copy(n, os.path.join(out, 'notes.md'))
    head = sh('git rev-parse HEAD').stdout.strip()
    json.dump(dict(property=prop, slug=slug, base_commit=head,
                   needs_to_manifest=open(n).read()[:1500] if os.path.exists(n) else '',
                   confirmed=dict(tests='all %d BASELINE stable_pass tests pass with the change applied' % len(base),
                                  demo_with_change_exit=d1.returncode, demo_without_change_exit=d0.returncode,
                                  demo_output=(d1.stdout + d1.stderr).strip()[-600:]),
                   checks=[prop], result={}),
              open(os.path.join(out, 'meta.json'), 'w'), indent=1)
