#!/usr/bin/env python3
"""regenerate MANIFEST.json from tools/manifest_meta.json + the property modules present"""
import json, os
here = os.path.dirname(os.path.dirname(os.path.abspath(__file__)))
meta = json.load(open(os.path.join(here, 'tools', 'manifest_meta.json')))
props = [json.loads(l) for l in open(os.path.join(here, 'properties.jsonl'))]
checks, na = [], []
for p in props:
    pid = p['id']
    m = meta['checks'].get(pid)
    if m and os.path.exists(os.path.join(here, 'vf', 'props', pid.lower() + '.py')):
        checks.append(dict(
            property_id=pid,
            quick_cmd='./check %s --tier quick' % pid,
            thorough_cmd='./check %s --tier thorough' % pid,
            evidence_file='evidence/%s.json' % pid,
            replay_cmd_template='./check %s --replay {path}' % pid,
            engine='vf',
            level_claimed=dict(category='exploration', text=m['level_text'],
                               design_ref='DESIGN.md section 2, ' + pid),
            level_note=m['level_note'],
            technique=m['technique']))
    else:
        na.append(dict(property_id=pid, reason=meta['not_applicable'].get(
            pid, 'check not built yet (planned: property-based check per DESIGN.md section 2)')))
man = dict(
    version=1,
    setup_cmd=meta['setup_cmd'],
    hooks=meta['hooks'],
    engines=[dict(name='vf', path='vf/', serves_properties=[c['property_id'] for c in checks],
                  kind_free_text='Hypothesis property-based testing harness: generated JSON '
                  'cases -> explicit oracle -> shrunk replay file; sharded over processes')],
    checks=checks,
    notes=meta['notes'],
    not_applicable=na)
json.dump(man, open(os.path.join(here, 'MANIFEST.json'), 'w'), indent=1)
print('%d checks, %d not claimed' % (len(checks), len(na)))
